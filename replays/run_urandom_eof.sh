#!/bin/sh
# usage: run_urandom_eof.sh [repo]; exit 0 = seeder fails closed on EOF, 1 = infinite loop
R=${1:-/repo}; T=$(mktemp -d)
cc -O1 -I$R/inc -I$R/src -DBR_RDRAND=0 -DBR_USE_GETENTROPY=0 -DBR_USE_URANDOM=1 -o $T/u $(dirname $0)/urandom_eof.c $R/src/rand/sysrng.c $R/build/libbearssl.a || exit 9
$T/u; rc=$?
rm -rf $T; exit $rc
