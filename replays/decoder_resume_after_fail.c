/*
 * Reproduction of a defect that is present in the UNMODIFIED code (it is
 * independent of the seeded change; same result with or without patch.diff).
 *
 * br_x509_decoder_push(), br_skey_decoder_push() and br_pkey_decoder_push()
 * unconditionally resume the T0 coroutine, even when a previous push ended
 * with "fail" (which only records ctx->err and yields). The interpreter then
 * simply continues with the instruction FOLLOWING the failed check:
 *
 *  (A) skey decoder: in read-integer-next
 *         len dup ifnot ERR_X509_LIMIT_EXCEEDED fail then 1- >len
 *         addr set8 addr 1+ >addr
 *      after the "buffer full" failure, the next push goes on with len = 0,
 *      computes len = 0 - 1 = 0xFFFFFFFF and stores every remaining byte of
 *      the oversized INTEGER past the end of key_data[] (the last field of
 *      the context): attacker-controlled linear overflow out of the context.
 *
 *  (B) x509 decoder: a certificate followed by 3 bytes, pushed one byte at a
 *      time: 1st extra byte -> EXTRA_ELEMENT failure; 2nd -> main "returns",
 *      popping rp_stack[-1] (= dp_stack[31]) and setting ip = NULL;
 *      3rd -> NULL pointer dereference in br_x509_decoder_run().
 *
 * Usage: preexisting <some-certificate.der>
 * Exit status 0 = neither problem observed, 1 = at least one observed.
 */

#include <stdio.h>
#include <stdlib.h>
#include <string.h>
#include <unistd.h>
#include <sys/types.h>
#include <sys/wait.h>

#include "bearssl.h"

static int
test_skey_overflow(void)
{
	/*
	 * RSAPrivateKey ::= SEQUENCE { version INTEGER 0, n INTEGER ... }
	 * with a 4000-byte modulus (key_data[] is 1536 bytes).
	 */
	static struct {
		br_skey_decoder_context dc;
		unsigned char canary[4096];
	} s;
	static unsigned char key[4 + 3 + 4 + 4000];
	size_t nlen = 4000, u, split, dirty;

	key[0] = 0x30; key[1] = 0x82;
	key[2] = (unsigned char)((3 + 4 + nlen) >> 8);
	key[3] = (unsigned char)(3 + 4 + nlen);
	key[4] = 0x02; key[5] = 0x01; key[6] = 0x00;
	key[7] = 0x02; key[8] = 0x82;
	key[9] = (unsigned char)(nlen >> 8);
	key[10] = (unsigned char)nlen;
	memset(key + 11, 0x41, nlen);

	memset(s.canary, 0xC5, sizeof s.canary);
	br_skey_decoder_init(&s.dc);

	/* First push: enough to fill key_data[] and hit the limit check. */
	split = 11 + sizeof s.dc.key_data + 10;
	br_skey_decoder_push(&s.dc, key, split);
	printf("skey: after push #1: last_error=%d\n",
		br_skey_decoder_last_error(&s.dc));
	/* Second push: the rest of the same key, no error check between. */
	br_skey_decoder_push(&s.dc, key + split, sizeof key - split);

	dirty = 0;
	for (u = 0; u < sizeof s.canary; u ++) {
		if (s.canary[u] != 0xC5) {
			dirty ++;
		}
	}
	printf("skey: after push #2: last_error=%d, "
		"%u bytes written PAST the decoder context\n",
		br_skey_decoder_last_error(&s.dc), (unsigned)dirty);
	return dirty != 0;
}

static int
test_x509_null_ip(const char *fname)
{
	pid_t pid;
	int st;

	fflush(stdout);
	pid = fork();
	if (pid == 0) {
		static unsigned char buf[8192];
		br_x509_decoder_context dc;
		FILE *f;
		size_t len, u;

		f = fopen(fname, "rb");
		if (f == NULL) {
			perror(fname);
			_exit(2);
		}
		len = fread(buf, 1, sizeof buf - 3, f);
		fclose(f);
		memset(buf + len, 0, 3);
		br_x509_decoder_init(&dc, 0, 0, 0, 0);
		for (u = 0; u < len + 3; u ++) {
			br_x509_decoder_push(&dc, buf + u, 1);
		}
		_exit(0);
	}
	waitpid(pid, &st, 0);
	if (WIFSIGNALED(st)) {
		printf("x509: certificate + 3 bytes, pushed byte by byte: "
			"decoder killed by signal %d\n", WTERMSIG(st));
		return 1;
	}
	printf("x509: certificate + 3 bytes, pushed byte by byte: "
		"exit status %d\n", WEXITSTATUS(st));
	return 0;
}

int
main(int argc, char *argv[])
{
	int r;

	if (argc != 2) {
		fprintf(stderr, "usage: preexisting cert.der\n");
		return 2;
	}
	r = test_skey_overflow();
	r |= test_x509_null_ip(argv[1]);
	if (r) {
		printf("PRE-EXISTING DEFECT REPRODUCED\n");
	}
	return r;
}
