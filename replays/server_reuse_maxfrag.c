/* Replay of the C01 finding: the maximum-fragment-length state negotiated by one connection survives
 * br_ssl_server_reset().  Connection 1: a client with small buffers asks for 512-byte fragments.  Connection 2, same
 * server context after reset: a client with full-size buffers (no extension).  Expected: both handshakes complete.
 * Defect: the server still answers with a max_fragment_length extension and the second client aborts (error 20).
 * cc -I/repo/inc -I/repo server_reuse_maxfrag.c /repo/build/libbearssl.a ; exit 0 = both complete, 1 = defect. */
#include <stdio.h>
#include <string.h>
#include "bearssl.h"
#include "samples/chain-rsa.h"
#include "samples/key-rsa.h"
#include "tas_samples.h"

static int pump(br_ssl_engine_context *a, br_ssl_engine_context *b)
{
	/* move record bytes a->b and b->a until both can send application data, or one side is closed */
	int rounds;
	for (rounds = 0; rounds < 10000; rounds ++) {
		br_ssl_engine_context *e[2] = { a, b };
		int k, moved = 0;
		unsigned sa = br_ssl_engine_current_state(a), sb = br_ssl_engine_current_state(b);
		if ((sa & BR_SSL_CLOSED) || (sb & BR_SSL_CLOSED)) return 0;
		if ((sa & BR_SSL_SENDAPP) && (sb & BR_SSL_SENDAPP)) return 1;
		for (k = 0; k < 2; k ++) {
			size_t slen, rlen;
			unsigned char *s = br_ssl_engine_sendrec_buf(e[k], &slen);
			unsigned char *r = br_ssl_engine_recvrec_buf(e[1 - k], &rlen);
			if (s != NULL && r != NULL) {
				size_t n = slen < rlen ? slen : rlen;
				memcpy(r, s, n);
				br_ssl_engine_sendrec_ack(e[k], n);
				br_ssl_engine_recvrec_ack(e[1 - k], n);
				moved = 1;
			}
		}
		if (!moved) return 0;
	}
	return 0;
}

int main(void)
{
	static br_ssl_server_context sc;
	static unsigned char sbuf[BR_SSL_BUFSIZE_BIDI];
	static unsigned char cbuf_small[837 + 597 + 64], cbuf_big[BR_SSL_BUFSIZE_BIDI];
	int conn, bad = 0;

	br_ssl_server_init_full_rsa(&sc, CHAIN, CHAIN_LEN, &RSA);
	br_ssl_engine_set_buffer(&sc.eng, sbuf, sizeof sbuf, 1);
	for (conn = 1; conn <= 2; conn ++) {
		br_ssl_client_context cc;
		br_x509_minimal_context xc;
		int ok;

		br_ssl_client_init_full(&cc, &xc, TAs, TAs_NUM);
		if (conn == 1) br_ssl_engine_set_buffer(&cc.eng, cbuf_small, sizeof cbuf_small, 1);
		else br_ssl_engine_set_buffer(&cc.eng, cbuf_big, sizeof cbuf_big, 1);
		br_ssl_client_reset(&cc, "localhost", 0);
		br_ssl_server_reset(&sc);
		ok = pump(&cc.eng, &sc.eng);
		printf("connection %d (%s client buffers): %s  client err=%d server err=%d\n", conn, conn == 1 ? "small" : "full-size",
			ok ? "handshake complete" : "HANDSHAKE FAILED", br_ssl_engine_last_error(&cc.eng), br_ssl_engine_last_error(&sc.eng));
		if (!ok) bad ++;
	}
	return bad != 0;
}
