/*
 * C12 demo: every Poly1305 implementation must produce the standard
 * ChaCha20-Poly1305 tag for every input, including inputs for which the
 * Poly1305 accumulator ends (before the final conditional subtraction)
 * in the non-canonical range p .. 2^130-1  (p = 2^130-5).
 *
 * cases.h holds 20 ciphertexts (32 bytes each, no AAD), crafted for one
 * fixed key/nonce (see craft.py), such that the final accumulator is
 * congruent to k = 0..4 modulo p; expected tags were computed with
 * Python big integers. Each implementation is run through the normal
 * AEAD API (decrypt direction, real br_chacha20_ct_run), and compared
 * with the expected tag (and hence with every other implementation).
 *
 * A few hundred random messages are cross-checked as well, to show that
 * ordinary differential testing sees nothing.
 */
#include <stdio.h>
#include <string.h>
#include <stdlib.h>
#include "bearssl.h"
#include "poly1305_cases2.h"

static const unsigned char KEY[32] = {
	0,1,2,3,4,5,6,7,8,9,10,11,12,13,14,15,
	16,17,18,19,20,21,22,23,24,25,26,27,28,29,30,31
};
static const unsigned char NONCE[12] = { 0,0,0,0,1,2,3,4,5,6,7,8 };

static struct { const char *name; br_poly1305_run run; } IMPL[5];
static int nimpl;

static void
hex(const char *lbl, const unsigned char *b, size_t n)
{
	size_t i;
	printf("    %-9s", lbl);
	for (i = 0; i < n; i ++) printf("%02x", b[i]);
	printf("\n");
}

int
main(void)
{
	size_t u;
	int i, fail = 0;
	br_poly1305_run q;

	IMPL[nimpl].name = "ctmul";   IMPL[nimpl ++].run = &br_poly1305_ctmul_run;
	IMPL[nimpl].name = "ctmul32"; IMPL[nimpl ++].run = &br_poly1305_ctmul32_run;
	IMPL[nimpl].name = "i15";     IMPL[nimpl ++].run = &br_poly1305_i15_run;
	q = br_poly1305_ctmulq_get();
	if (q != 0) { IMPL[nimpl].name = "ctmulq"; IMPL[nimpl ++].run = q; }

	/* 1. crafted edge cases */
	for (u = 0; u < sizeof CASES / sizeof CASES[0]; u ++) {
		for (i = 0; i < nimpl; i ++) {
			unsigned char buf[32], tag[16];

			memcpy(buf, CASES[u].data, 32);
			IMPL[i].run(KEY, NONCE, buf, 32, NULL, 0, tag,
				&br_chacha20_ct_run, 0);
			if (memcmp(tag, CASES[u].tag, 16) != 0) {
				printf("FAIL: %s, case %u (final acc = %d mod p): wrong tag\n",
					IMPL[i].name, (unsigned)u, CASES[u].k);
				hex("got", tag, 16);
				hex("expected", CASES[u].tag, 16);
				fail ++;
			}
		}
	}

	/* 2. random differential test between implementations */
	srand(1);
	for (u = 0; u < 600; u ++) {
		unsigned char key[32], nonce[12], data[300], aad[40];
		unsigned char buf[300], tag0[16], tag[16];
		size_t len = u % 300, alen = (u * 7) % 40, v;

		for (v = 0; v < 32; v ++) key[v] = rand();
		for (v = 0; v < 12; v ++) nonce[v] = rand();
		for (v = 0; v < len; v ++) data[v] = rand();
		for (v = 0; v < alen; v ++) aad[v] = rand();
		for (i = 0; i < nimpl; i ++) {
			memcpy(buf, data, len);
			IMPL[i].run(key, nonce, buf, len, aad, alen, tag,
				&br_chacha20_ct_run, 1);
			if (i == 0) {
				memcpy(tag0, tag, 16);
			} else if (memcmp(tag, tag0, 16) != 0) {
				printf("FAIL: random test %u: %s != %s\n",
					(unsigned)u, IMPL[i].name, IMPL[0].name);
				fail ++;
			}
		}
	}

	if (fail) {
		printf("C12 BROKEN: %d mismatch(es)\n", fail);
		return 1;
	}
	printf("C12 holds on %u crafted + 600 random cases, %d implementations\n",
		(unsigned)(sizeof CASES / sizeof CASES[0]), nimpl);
	return 0;
}
