/* Concrete replay of the C05 finding: br_pkey_decoder copies an RSA modulus of up to 3*BR_X509_BUFSIZE_KEY = 1560 bytes into
 * key_data[3*BR_X509_BUFSIZE_SIG] = 1536 bytes, the last member of the context.
 * Build (ASan on the decoder): see replays/run_pkey_overflow.sh.  Exit: ASan abort = defect present; 0 = rejected / fits. */
#include <stdio.h>
#include <stdlib.h>
#include <string.h>
#include "bearssl.h"

static size_t put_len(unsigned char *b, size_t len) {
	if (len < 128) { b[0] = (unsigned char)len; return 1; }
	if (len < 256) { b[0] = 0x81; b[1] = (unsigned char)len; return 2; }
	b[0] = 0x82; b[1] = (unsigned char)(len >> 8); b[2] = (unsigned char)len; return 3;
}

int main(int argc, char **argv) {
	size_t nlen = argc > 1 ? (size_t)atoi(argv[1]) : 1550;
	unsigned char *rsa = malloc(nlen + 64), *bits = malloc(nlen + 80), *spki = malloc(nlen + 128);
	size_t p = 0, q, r;
	static const unsigned char alg[] = { 0x30, 0x0D, 0x06, 0x09, 0x2A, 0x86, 0x48, 0x86, 0xF7, 0x0D, 0x01, 0x01, 0x01, 0x05, 0x00 };
	unsigned char tmp[8];
	/* RSAPublicKey ::= SEQUENCE { INTEGER n, INTEGER e } */
	unsigned char *body = malloc(nlen + 32);
	q = 0;
	body[q ++] = 0x02; q += put_len(body + q, nlen + 1); body[q ++] = 0x00; memset(body + q, 0xC3, nlen); body[q] |= 0x80; body[q + nlen - 1] |= 1; q += nlen;
	body[q ++] = 0x02; body[q ++] = 0x03; body[q ++] = 0x01; body[q ++] = 0x00; body[q ++] = 0x01;
	rsa[p ++] = 0x30; p += put_len(rsa + p, q); memcpy(rsa + p, body, q); p += q;
	/* BIT STRING */
	r = 0; bits[r ++] = 0x03; r += put_len(bits + r, p + 1); bits[r ++] = 0x00; memcpy(bits + r, rsa, p); r += p;
	/* SubjectPublicKeyInfo */
	q = 0; spki[q ++] = 0x30; q += put_len(spki + q, sizeof alg + r); memcpy(spki + q, alg, sizeof alg); q += sizeof alg; memcpy(spki + q, bits, r); q += r;
	(void)tmp;
	br_pkey_decoder_context *dc = malloc(sizeof *dc);     /* heap object: a write past key_data leaves the allocation */
	br_pkey_decoder_init(dc);
	br_pkey_decoder_push(dc, spki, q);
	printf("modulus %zu bytes: err=%d key_type=%d\n", nlen, br_pkey_decoder_last_error(dc), br_pkey_decoder_key_type(dc));
	return 0;
}
