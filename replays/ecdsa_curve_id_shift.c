/* Replay of the C05 finding: the ECDSA verifiers / signers shift impl->supported_curves by the curve field of the key structure
 * without a range test (br_ec_keygen and br_ec_compute_pub have one).  A public key with curve = 55 (32 + secp256r1): the shift is
 * undefined behaviour (UBSan: shift exponent 55 is too large for 32-bit type); on x86 the count is masked, the test passes for the
 * aliased identifier and the curve tables are then indexed with 55.  See run_ecdsa_curve_id_shift.sh.  Expected: returns 0 (failure)
 * without any sanitizer report. */
#include <stdio.h>
#include "bearssl.h"
int main(int argc, char *argv[])
{
	unsigned char q[65] = { 4 }, h[32] = { 1 }, sig[64] = { 1 };
	br_ec_public_key pk = { 55 /* 32 + secp256r1 */, q, sizeof q };
	uint32_t r;
	r = (argc > 1 && argv[1][1] == '1')
		? br_ecdsa_i15_vrfy_raw(&br_ec_prime_i15, h, 32, &pk, sig, 64)
		: br_ecdsa_i31_vrfy_raw(&br_ec_prime_i31, h, 32, &pk, sig, 64);
	printf("verify with curve id 55 -> %u\n", (unsigned)r);
	return r != 0;
}
