/* Replay of the C06 finding: br_ssl_engine_flush(cc, 1) on a shared (half-duplex) I/O buffer while an incoming record is only
 * partially received.  bearssl_ssl.h: an empty record is assembled only "if no application data has been buffered but the engine
 * would be ready to accept some"; in BR_IO_IN mode it is not, yet sendpld_flush() builds an empty encrypted record on top of the
 * record bytes already received: the incoming record then fails its MAC (error 7) and the peer's bytes are lost.
 * cc -I/repo/inc -I/repo flush_half_duplex.c /repo/build/libbearssl.a ; exit 0 = bytes delivered intact, 1 = defect.
 * (argument 0: same sequence without the flush call - control.) */
#include <stdio.h>
#include <stdlib.h>
#include <string.h>
#include "bearssl.h"
#include "samples/chain-rsa.h"
#include "samples/key-rsa.h"
#include "tas_samples.h"

static unsigned char c_iobuf[BR_SSL_BUFSIZE_MONO];
static unsigned char s_iobuf[BR_SSL_BUFSIZE_MONO];
static br_ssl_client_context cc;
static br_x509_minimal_context xc;
static br_ssl_server_context sc;

static size_t
xfer(br_ssl_engine_context *src, br_ssl_engine_context *dst, size_t max)
{
	size_t total = 0;
	while (total < max) {
		unsigned char *a, *b;
		size_t la, lb;
		a = br_ssl_engine_sendrec_buf(src, &la);
		b = br_ssl_engine_recvrec_buf(dst, &lb);
		if (!a || !b) break;
		if (la > lb) la = lb;
		if (la > max - total) la = max - total;
		memcpy(b, a, la);
		br_ssl_engine_recvrec_ack(dst, la);
		br_ssl_engine_sendrec_ack(src, la);
		total += la;
	}
	return total;
}

int
main(int argc, char *argv[])
{
	int do_flush = argc > 1 ? atoi(argv[1]) : 1;
	unsigned char *buf; size_t len;
	const char *msg = "0123456789abcdefghijklmnopqrstuvwxyz0123456789";

	br_ssl_client_init_full(&cc, &xc, TAs, TAs_NUM);
	br_ssl_engine_set_buffer(&cc.eng, c_iobuf, sizeof c_iobuf, 0);
	br_ssl_server_init_full_rsa(&sc, CHAIN, CHAIN_LEN, &RSA);
	br_ssl_engine_set_buffer(&sc.eng, s_iobuf, sizeof s_iobuf, 0);
	br_ssl_client_reset(&cc, "localhost", 0);
	br_ssl_server_reset(&sc);
	while (xfer(&cc.eng, &sc.eng, (size_t)-1) + xfer(&sc.eng, &cc.eng, (size_t)-1)) ;
	if (!(br_ssl_engine_current_state(&cc.eng) & BR_SSL_SENDAPP)
		|| !(br_ssl_engine_current_state(&sc.eng) & BR_SSL_SENDAPP)) {
		printf("handshake failed\n"); return 2;
	}
	buf = br_ssl_engine_sendapp_buf(&cc.eng, &len);
	memcpy(buf, msg, strlen(msg));
	br_ssl_engine_sendapp_ack(&cc.eng, strlen(msg));
	br_ssl_engine_flush(&cc.eng, 0);
	/* deliver only the first 20 bytes of the record to the server */
	xfer(&cc.eng, &sc.eng, 20);
	printf("server state after partial record: 0x%02X\n",
		br_ssl_engine_current_state(&sc.eng));
	if (do_flush) {
		/* allowed API call: "flush", engine not closed */
		br_ssl_engine_flush(&sc.eng, 1);
		printf("server state after flush(force=1): 0x%02X\n",
			br_ssl_engine_current_state(&sc.eng));
	}
	xfer(&cc.eng, &sc.eng, (size_t)-1);
	printf("server state after full record: 0x%02X err=%d\n",
		br_ssl_engine_current_state(&sc.eng),
		br_ssl_engine_last_error(&sc.eng));
	buf = br_ssl_engine_recvapp_buf(&sc.eng, &len);
	if (buf == NULL || len != strlen(msg) || memcmp(buf, msg, len)) {
		printf("DEFECT: application bytes lost/corrupted (err=%d)\n",
			br_ssl_engine_last_error(&sc.eng));
		return 1;
	}
	printf("bytes delivered intact\n");
	return 0;
}
