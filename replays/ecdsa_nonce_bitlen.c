/* Reproduction of a pre-existing (unmodified code) C08 violation:
 * br_ecdsa_i15_bits2int()/br_ecdsa_i31_bits2int() call br_iXX_decode() on the
 * secret ECDSA nonce candidate k; decode stores the TRUE bit length of k in
 * x[0]; br_iXX_rshift() then loops (x[0]+W-1)/W times, i.e. the number of
 * executed loop iterations depends on the number of leading zero bits of k.
 * argv[1] = top byte of k (hex), argv[2] = 15 | 31.   Run under callgrind. */
#include <stdio.h>
#include <stdlib.h>
#include <string.h>
#include "inner.h"

int
main(int argc, char *argv[])
{
	unsigned char kb[32];
	const unsigned char *ord;
	size_t olen;

	if (argc < 3) return 2;
	memset(kb, 0x5A, sizeof kb);
	kb[0] = (unsigned char)strtoul(argv[1], 0, 16);
	ord = br_ec_prime_i31.order(BR_EC_secp256r1, &olen);
	if (atoi(argv[2]) == 15) {
		uint16_t n[40], k[40];
		br_i15_decode(n, ord, olen);
		br_ecdsa_i15_bits2int(k, kb, sizeof kb, n[0]);
		printf("i15 k[1]=%04x\n", k[1]);
	} else {
		uint32_t n[20], k[20];
		br_i31_decode(n, ord, olen);
		br_ecdsa_i31_bits2int(k, kb, sizeof kb, n[0]);
		printf("i31 k[1]=%08x\n", (unsigned)k[1]);
	}
	return 0;
}
