#!/bin/sh
# usage: run_ecdsa_curve_id_shift.sh [repo]: builds the two verifiers with -fsanitize=shift,bounds and calls them with curve = 55.
# exit 0 = rejected cleanly, 1 = sanitizer report / crash.
R=${1:-/repo}; T=$(mktemp -d); rc=0
for w in 15 31; do
	clang -g -O1 -fsanitize=shift,bounds,address -fno-sanitize-recover=all -I$R/inc -I$R/src -o $T/k$w $(dirname $0)/ecdsa_curve_id_shift.c \
		$R/src/ec/ecdsa_i${w}_vrfy_raw.c $R/src/ec/ec_prime_i${w}.c $R/build/libbearssl.a || exit 9
	$T/k$w i$w 2>&1 | tail -3
	[ $? -ne 0 ] && rc=1
	$T/k$w i$w >/dev/null 2>&1 || rc=1
done
rm -rf $T; exit $rc
