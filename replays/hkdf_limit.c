/* Replay of the C13 finding: br_hkdf_produce() stops after 255 blocks (RFC 5869: L <= 255 * HashLen) and returns a short count, but a
 * further call does not return 0: chunk_num goes 256 -> 257, the "== 256" test no longer fires, the counter byte wraps to 1, and the
 * function re-emits the output stream from T(1).  cc -I/repo/inc hkdf_limit.c /repo/build/libbearssl.a ; exit 0 = no output beyond
 * the limit, 1 = defect. */
#include <stdio.h>
#include <string.h>
#include "bearssl.h"

int
main(void)
{
	static unsigned char big[255 * 32 + 64];
	unsigned char more[32];
	br_hkdf_context hc;
	size_t n1, n2;

	br_hkdf_init(&hc, &br_sha256_vtable, "salt", 4);
	br_hkdf_inject(&hc, "input key material", 18);
	br_hkdf_flip(&hc);
	n1 = br_hkdf_produce(&hc, "info", 4, big, sizeof big);
	printf("first call: asked %u, got %u (limit 255*32 = %u)\n",
		(unsigned)sizeof big, (unsigned)n1, 255u * 32u);
	n2 = br_hkdf_produce(&hc, "info", 4, more, sizeof more);
	printf("second call after the limit: asked 32, got %u\n", (unsigned)n2);
	if (n2 != 0) {
		printf("bytes returned after the limit %s the first output"
			" block T(1)\n",
			memcmp(more, big, 32) == 0 ? "REPEAT" : "differ from");
		printf("DEFECT: HKDF produced output beyond the 255-block"
			" limit\n");
		return 1;
	}
	printf("OK\n");
	return 0;
}
