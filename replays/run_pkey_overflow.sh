#!/bin/sh
# usage: run_pkey_overflow.sh [repo] ; builds the decoder with AddressSanitizer and feeds it a 1550-byte RSA modulus
R=${1:-/repo}; T=$(mktemp -d)
clang -g -fsanitize=address -I$R/inc -I$R/src -DBR_SLOW_MUL15=1 -c $R/src/x509/pkey_decoder.c -o $T/pkey_decoder.o || exit 9
clang -g -fsanitize=address -I$R/inc $(dirname $0)/pkey_overflow.c $T/pkey_decoder.o $R/build/libbearssl.a -o $T/replay || exit 9
export ASAN_OPTIONS=detect_leaks=0; $T/replay 256 && $T/replay 1536 && $T/replay 1550; rc=$?
rm -rf $T; exit $rc
