/* Replay of the C11 finding: a valid ECDSA signature is rejected when the (truncated, reduced) hash value is 0 modulo the curve
 * order - e.g. for an empty hash (hash_len == 0, part of the property's range "hashes of every length 0..64"), or a hash equal to n.
 * Then u1 = e/s = 0 and the verifier handed a zero multiplier to muladd(), whose contract excludes it.  The signature is made by
 * the library's own signer (deterministic k, RFC 6979) and must verify with both verifiers and every implementation.
 * cc -I/repo/inc -I/repo/src ecdsa_zero_hash.c /repo/build/libbearssl.a ; exit 0 = all accepted, 1 = defect. */
#include <stdio.h>
#include <string.h>
#include "bearssl.h"

static const unsigned char X[32] = {
	0xC9, 0xAF, 0xA9, 0xD8, 0x45, 0xBA, 0x75, 0x16, 0x6B, 0x5C, 0x21, 0x57, 0x67, 0xB1, 0xD6, 0x93,
	0x4E, 0x50, 0xC3, 0xDB, 0x36, 0xE8, 0x9B, 0x12, 0x7B, 0x8A, 0x62, 0x2B, 0x12, 0x0F, 0x67, 0x21
};

int main(void)
{
	static const struct { const char *name; const br_ec_impl *impl; } IM[] = {
		{ "prime_i15", &br_ec_prime_i15 }, { "prime_i31", &br_ec_prime_i31 },
		{ "p256_m15", &br_ec_p256_m15 }, { "p256_m31", &br_ec_p256_m31 },
		{ "all_m15", &br_ec_all_m15 }, { "all_m31", &br_ec_all_m31 },
	};
	br_ec_private_key sk = { BR_EC_secp256r1, (unsigned char *)X, sizeof X };
	br_ec_public_key pk;
	unsigned char kbuf[BR_EC_KBUF_PUB_MAX_SIZE], sig[64], one[32];
	size_t u, slen;
	int bad = 0;

	if (br_ec_compute_pub(&br_ec_prime_i31, &pk, kbuf, &sk) == 0) return 2;
	/* control: hash = 00..01 */
	memset(one, 0, sizeof one);
	one[31] = 1;
	slen = br_ecdsa_i31_sign_raw(&br_ec_prime_i31, &br_sha256_vtable, one, &sk, sig);
	if (slen != 64 || !br_ecdsa_i31_vrfy_raw(&br_ec_prime_i31, one, 32, &pk, sig, slen)) {
		printf("control signature (hash = 1) not verified\n");
		return 2;
	}
	/* the library signs a 32-byte all-zero hash value: e = 0 */
	memset(one, 0, sizeof one);
	slen = br_ecdsa_i31_sign_raw(&br_ec_prime_i31, &br_sha256_vtable, one, &sk, sig);
	if (slen != 64) return 2;
	for (u = 0; u < sizeof IM / sizeof IM[0]; u ++) {
		uint32_t a = br_ecdsa_i31_vrfy_raw(IM[u].impl, one, 32, &pk, sig, slen);
		uint32_t b = br_ecdsa_i15_vrfy_raw(IM[u].impl, one, 32, &pk, sig, slen);
		uint32_t c = br_ecdsa_i31_vrfy_raw(IM[u].impl, one, 0, &pk, sig, slen);
		printf("%-10s e = 0: i31 verifier %u, i15 verifier %u, empty hash %u\n", IM[u].name, (unsigned)a, (unsigned)b, (unsigned)c);
		if (!a || !b || !c) bad = 1;
	}
	/* a wrong signature for e = 0 must still be rejected */
	sig[40] ^= 1;
	if (br_ecdsa_i31_vrfy_raw(&br_ec_prime_i31, one, 32, &pk, sig, slen) || br_ecdsa_i15_vrfy_raw(&br_ec_prime_i15, one, 32, &pk, sig, slen)) {
		printf("altered signature accepted\n");
		return 3;
	}
	if (bad) printf("DEFECT: valid signatures over a hash value that is 0 modulo n are rejected\n");
	return bad;
}
